"""Behaviour-preserving rewrites: every rule must give the same verdict."""
import ast
import copy
import os

SILENT = [
    {'id': 'S-unparse-roundtrip', 'what': 'ast.unparse round trip of every '
     'module (all positions, comments and layout change)'},
    {'id': 'S-rename-locals', 'what': 'rename every local variable and every '
     'parameter of private functions (when no call passes it by keyword)'},
    {'id': 'S-split-or', 'what': 'if A or B: <exit> -> two ifs'},
    {'id': 'S-merge-nested-if', 'what': 'if A: if B: body -> if A and B: body'},
    {'id': 'S-nested-with', 'what': 'with a, b: -> with a: with b:'},
    {'id': 'S-json-roundtrip-copy', 'what': 'copy.deepcopy(x) -> '
     'json.loads(json.dumps(x)) in file_builder.py'},
    {'id': 'S-swap-if-else', 'what': 'if c: A else: B -> if not c: B else: A'},
]


def _files(root):
    d = os.path.join(root, 'file_builder')
    return [os.path.join(d, f) for f in sorted(os.listdir(d))
            if f.endswith('.py')]


def apply(spec, root):
    fn = globals()['_t_' + spec['id'][2:].replace('-', '_')]
    n = 0
    for p in _files(root):
        src = open(p).read()
        tree = ast.parse(src)
        k = fn(tree, os.path.basename(p))
        n += k
        out = ast.unparse(tree) + '\n'
        compile(out, p, 'exec')
        open(p, 'w').write(out)
    if n == 0 and spec['id'] != 'S-unparse-roundtrip':
        return 'transform matched nothing'
    return None


def _t_unparse_roundtrip(tree, fn):
    return 1


def _t_rename_locals(tree, fn):
    # keyword names used at any call in the module
    kw = {k.arg for n in ast.walk(tree) if isinstance(n, ast.Call)
          for k in n.keywords if k.arg}
    n = 0
    for f in ast.walk(tree):
        if not isinstance(f, ast.FunctionDef):
            continue
        a = f.args
        params = [x.arg for x in a.posonlyargs + a.args + a.kwonlyargs]
        if a.vararg:
            params.append(a.vararg.arg)
        if a.kwarg:
            params.append(a.kwarg.arg)
        is_static = any(isinstance(d, ast.Name) and d.id == 'staticmethod'
                        for d in f.decorator_list)
        self_name = None
        if not is_static and params and _in_class(tree, f):
            self_name = params[0]
        private = f.name.startswith('_') and not f.name.startswith('__')
        stores = {x.id for x in ast.walk(f) if isinstance(x, ast.Name) and
                  isinstance(x.ctx, (ast.Store, ast.Del))}
        stores |= {h.name for h in ast.walk(f)
                   if isinstance(h, ast.ExceptHandler) and h.name}
        ren = {}
        for s in stores:
            if s not in params:
                ren[s] = 'v_' + s + '_r'
        if private:
            for p in params:
                if p != self_name and p not in kw:
                    ren[p] = 'p_' + p + '_r'
        for x in ast.walk(f):
            if isinstance(x, ast.Name) and x.id in ren:
                x.id = ren[x.id]
                n += 1
            elif isinstance(x, ast.arg) and x.arg in ren:
                x.arg = ren[x.arg]
            elif isinstance(x, ast.ExceptHandler) and x.name in ren:
                x.name = ren[x.name]
    return n


def _in_class(tree, f):
    for c in ast.walk(tree):
        if isinstance(c, ast.ClassDef) and f in c.body:
            return True
    return False


def _exits(body):
    return isinstance(body[-1], (ast.Return, ast.Raise, ast.Continue,
                                 ast.Break))


class _SplitOr(ast.NodeTransformer):
    n = 0

    def visit_If(self, node):
        self.generic_visit(node)
        if (isinstance(node.test, ast.BoolOp) and
                isinstance(node.test.op, ast.Or) and not node.orelse and
                _exits(node.body)):
            self.n += 1
            return [ast.If(test=v, body=copy.deepcopy(node.body), orelse=[])
                    for v in node.test.values]
        return node


def _t_split_or(tree, fn):
    t = _SplitOr()
    t.visit(tree)
    ast.fix_missing_locations(tree)
    return t.n


class _Merge(ast.NodeTransformer):
    n = 0

    def visit_If(self, node):
        self.generic_visit(node)
        if (not node.orelse and len(node.body) == 1 and
                isinstance(node.body[0], ast.If) and not node.body[0].orelse):
            self.n += 1
            inner = node.body[0]
            return ast.If(test=ast.BoolOp(op=ast.And(),
                                          values=[node.test, inner.test]),
                          body=inner.body, orelse=[])
        return node


def _t_merge_nested_if(tree, fn):
    t = _Merge()
    t.visit(tree)
    ast.fix_missing_locations(tree)
    return t.n


class _NestWith(ast.NodeTransformer):
    n = 0

    def visit_With(self, node):
        self.generic_visit(node)
        if len(node.items) > 1:
            self.n += 1
            body = node.body
            for it in reversed(node.items):
                body = [ast.With(items=[it], body=body)]
            return body[0]
        return node


def _t_nested_with(tree, fn):
    t = _NestWith()
    t.visit(tree)
    ast.fix_missing_locations(tree)
    return t.n


class _JsonCopy(ast.NodeTransformer):
    n = 0

    def visit_Call(self, node):
        self.generic_visit(node)
        f = node.func
        if (isinstance(f, ast.Attribute) and f.attr == 'deepcopy' and
                isinstance(f.value, ast.Name) and f.value.id == 'copy'):
            self.n += 1
            inner = ast.Call(func=ast.Attribute(
                value=ast.Name(id='json', ctx=ast.Load()), attr='dumps',
                ctx=ast.Load()), args=node.args, keywords=[])
            return ast.Call(func=ast.Attribute(
                value=ast.Name(id='json', ctx=ast.Load()), attr='loads',
                ctx=ast.Load()), args=[inner], keywords=[])
        return node


def _t_json_roundtrip_copy(tree, fn):
    if fn != 'file_builder.py':
        return 0
    t = _JsonCopy()
    t.visit(tree)
    if t.n:
        tree.body.insert(0, ast.Import(names=[ast.alias(name='json')]))
    ast.fix_missing_locations(tree)
    return t.n


class _Swap(ast.NodeTransformer):
    n = 0

    def visit_If(self, node):
        self.generic_visit(node)
        if node.orelse and not (len(node.orelse) == 1 and
                                isinstance(node.orelse[0], ast.If)):
            self.n += 1
            return ast.If(test=ast.UnaryOp(op=ast.Not(), operand=node.test),
                          body=node.orelse, orelse=node.body)
        return node


def _t_swap_if_else(tree, fn):
    t = _Swap()
    t.visit(tree)
    ast.fix_missing_locations(tree)
    return t.n
