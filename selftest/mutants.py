"""Must-fire variants: one realistic regression per rule instance.  Each
still compiles; the edit is a snippet replacement on the current tree (a
snippet that no longer occurs exactly once is reported as skipped)."""

FB = 'file_builder.py'
CA = 'cache.py'
EX = 'simple_operation_executor.py'
BD = 'build_dirs.py'
BK = 'file_backups.py'
JU = 'json_util.py'
OP = 'operation.py'
CF = 'created_files.py'

MUTANTS = []


def M(id_, props, expect, edits, what=''):
    if isinstance(props, str):
        props = [props]
    if isinstance(expect, str):
        expect = [expect]
    MUTANTS.append({'id': id_, 'props': props, 'expect': expect,
                    'edits': edits, 'what': what})


# ---- C11 -----------------------------------------------------------------
M('c11-ret-buildfile-nocopy', 'C11', 'R11.1', [(FB,
  "            self._append_suboperation(suboperation)\n"
  "        return copy.deepcopy(suboperation.return_value)\n\n"
  "    def subbuild(",
  "            self._append_suboperation(suboperation)\n"
  "        return suboperation.return_value\n\n"
  "    def subbuild(")], 'build_file returns the record object')
M('c11-ret-simple-nocopy', 'C11', 'R11.1', [(FB,
  "        return copy.deepcopy(operation.return_value)\n",
  "        return operation.return_value\n")])
M('c11-ret-simple-shallow', 'C11', 'R11.1', [(FB,
  "        return copy.deepcopy(operation.return_value)\n",
  "        return list(operation.return_value)\n")],
  'shallow copy only (walk tuples share their lists)')
M('c11-arg-nocopy-args', 'C11', 'R11.1', [(FB,
  "                func, [self, filename] + copy.deepcopy(operation.args),",
  "                func, [self, filename] + operation.args,")])
M('c11-arg-nocopy-kwargs-subbuild', 'C11', 'R11.1', [(FB,
  "                    func, [self] + copy.deepcopy(operation.args),\n"
  "                    copy.deepcopy(operation.kwargs), description)",
  "                    func, [self] + copy.deepcopy(operation.args),\n"
  "                    operation.kwargs, description)")])
M('c11-via-local', 'C11', 'R11.1', [(FB,
  "            self._append_suboperation(suboperation)\n"
  "        return copy.deepcopy(suboperation.return_value)\n\n"
  "    def read_text(",
  "            self._append_suboperation(suboperation)\n"
  "        result = suboperation.return_value\n"
  "        return result\n\n"
  "    def read_text(")])
M('c11-capture-unsanitised-return', 'C11', 'R11.2', [(FB,
  "        try:\n            return JsonUtil.sanitize(return_value)\n",
  "        try:\n            JsonUtil.sanitize(return_value)\n"
  "            return return_value\n")],
  'validates but stores the user object itself')
M('c11-capture-unsanitised-args', 'C11', 'R11.2', [(FB,
  "            return (JsonUtil.sanitize(args), JsonUtil.sanitize(kwargs))",
  "            JsonUtil.sanitize(args)\n"
  "            return (list(args), JsonUtil.sanitize(kwargs))")])
M('c11-capture-versions', 'C11', 'R11.2', [(FB,
  "        new_cache = Cache.create_empty_mutable(build_name, sanitized_versions)",
  "        new_cache = Cache.create_empty_mutable(build_name, versions)")])

# ---- C15 -----------------------------------------------------------------
M('c15-validate-versions-late', 'C15', 'R15.1', [
  (FB, "        sanitized_versions = FileBuilder._sanitize_versions(versions)\n\n", "\n"),
  (FB, "        new_cache = Cache.create_empty_mutable(build_name, sanitized_versions)\n        build_dirs",
       "        new_cache = None\n        build_dirs"),
  (FB, "        with FileBackups() as backups:\n            builder = FileBuilder(",
       "        with FileBackups() as backups:\n"
       "            sanitized_versions = FileBuilder._sanitize_versions(versions)\n"
       "            new_cache = Cache.create_empty_mutable(build_name, sanitized_versions)\n"
       "            builder = FileBuilder("),
  ], 'versions validated after the backup context was entered')
M('c15-clean-remove-before-name-check', 'C15', 'R15.1', [
  (FB, "        cache = Cache.read_immutable(cache_filename)\n"
       "        if build_name is not None and cache.build_name() != build_name:",
       "        cache = Cache.read_immutable(cache_filename)\n"
       "        for filename in cache.created_files():\n"
       "            FileBuilder._try_to_remove_file(filename)\n"
       "        if build_name is not None and cache.build_name() != build_name:")])
M('c15-reader-update-mode', 'C15', 'R15.2', [(CA,
  "            with gzip.open(filename, 'rt') as file_:",
  "            with gzip.open(filename, 'r+t') as file_:")])
M('c15-mkdir-before-read', 'C15', 'R15.1', [(FB,
  "        if os.path.isfile(cache_filename):\n            old_cache = Cache.read_immutable(cache_filename)",
  "        os.makedirs(os.path.dirname(cache_filename), exist_ok=True)\n"
  "        if os.path.isfile(cache_filename):\n            old_cache = Cache.read_immutable(cache_filename)")])
M('c15-backups-not-with', 'C15', 'R15.3', [(FB,
  "        with FileBackups() as backups:\n            builder = FileBuilder(\n                None, old_cache, new_cache, simple_operation_executor, backups,\n                build_dirs)\n            try:\n                return builder._build(cache_filename, func, args, kwargs)\n            finally:\n                builder._is_finished_build = True",
  "        backups = FileBackups().__enter__()\n        if True:\n            builder = FileBuilder(\n                None, old_cache, new_cache, simple_operation_executor, backups,\n                build_dirs)\n            try:\n                return builder._build(cache_filename, func, args, kwargs)\n            finally:\n                builder._is_finished_build = True")])
M('c15-build-effect-before-delegate', 'C15', 'R15.1', [(FB,
  "        return FileBuilder.build_versioned(\n            cache_filename, build_name, {}, func, *args, **kwargs)",
  "        os.makedirs(os.path.dirname(os.path.abspath(cache_filename)), exist_ok=True)\n"
  "        return FileBuilder.build_versioned(\n            cache_filename, build_name, {}, func, *args, **kwargs)")])

# ---- C06 / guards --------------------------------------------------------
GUARD_PROPS = ['C01']
M('g-drop-version-nested-sub', ['C01', 'C06'], ['R1.4', 'R6.1'], [(FB,
  "        if (not JsonUtil.is_equal(\n"
  "                self._old_cache.get_func_version(operation.func_name),\n"
  "                self._new_cache.get_func_version(operation.func_name)) or\n\n"
  "                # If setup failed, then the conditions that gave rise to the\n"
  "                # failure might no longer hold. See SetupFailedTest for an\n"
  "                # example.\n"
  "                operation.setup_failed):",
  "        if (operation.setup_failed):")])
M('g-version-raw-eq-top-sub', ['C01', 'C06'], ['R1.4', 'R6.1'], [(FB,
  "        if (cached_operation is not None and not cached_operation.raised and\n"
  "                JsonUtil.is_equal(\n"
  "                    self._old_cache.get_func_version(operation.func_name),\n"
  "                    self._new_cache.get_func_version(operation.func_name)) and\n"
  "                self._are_suboperations_cached(\n"
  "                    cached_operation, CreatedFiles())):",
  "        if (cached_operation is not None and not cached_operation.raised and\n"
  "                self._old_cache.get_func_version(operation.func_name) ==\n"
  "                self._new_cache.get_func_version(operation.func_name) and\n"
  "                self._are_suboperations_cached(\n"
  "                    cached_operation, CreatedFiles())):")],
  'versions compared with == (True == 1)')
M('g-version-same-cache', ['C01', 'C06'], ['R1.4', 'R6.1'], [(FB,
  "                JsonUtil.is_equal(\n"
  "                    self._old_cache.get_func_version(operation.func_name),\n"
  "                    self._new_cache.get_func_version(operation.func_name)) and\n"
  "                JsonUtil.is_equal(cached_operation.args, operation.args) and",
  "                JsonUtil.is_equal(\n"
  "                    self._new_cache.get_func_version(operation.func_name),\n"
  "                    self._new_cache.get_func_version(operation.func_name)) and\n"
  "                JsonUtil.is_equal(cached_operation.args, operation.args) and")],
  'compares the new version with itself')
M('g-opversion-drop', ['C01', 'C06', 'C13'], ['R1.4', 'R6.3', 'R13.4'], [(FB,
  "        if (not JsonUtil.is_equal(\n"
  "                self._old_cache.get_operation_version(name),\n"
  "                self._new_cache.get_operation_version(name)) or\n\n"
  "                # In case future releases of FileBuilder add new operations\n"
  "                name not in SimpleOperationExecutor.OPERATIONS):",
  "        if (name not in SimpleOperationExecutor.OPERATIONS):")])
M('g-drop-output-intact-top', ['C01', 'C05', 'C13'], ['R1.4', 'R5.6', 'R13.4'], [(FB,
  "                self._is_build_file_cached(cached_operation) and\n"
  "                self._are_suboperations_cached(\n"
  "                    cached_operation, CreatedFiles())):\n"
  "            return cached_operation",
  "                self._are_suboperations_cached(\n"
  "                    cached_operation, CreatedFiles())):\n"
  "            return cached_operation")])
M('g-drop-exc-eq', ['C01', 'C05', 'C13'], ['R1.4', 'R5.5', 'R13.4'], [(FB,
  "        return (\n"
  "            JsonUtil.is_equal(return_value, operation.return_value) and\n"
  "            exception_type_str == operation.exception_type_str)",
  "        return (\n"
  "            JsonUtil.is_equal(return_value, operation.return_value))")])
M('g-drop-args-eq', ['C01', 'C07'], ['R1.4', 'R7.4'], [(FB,
  "                JsonUtil.is_equal(cached_operation.args, operation.args) and\n", "")])
M('g-funcname-dropped', ['C01', 'C07'], ['R1.4', 'R7.4'], [(FB,
  "                cached_operation.func_name == operation.func_name and\n", "")])
M('g-serve-raised-top', ['C01', 'C05'], ['R1.4', 'R5.2'], [(FB,
  "        if (cached_operation is not None and not cached_operation.raised and\n"
  "                cached_operation.func_name == operation.func_name and",
  "        if (cached_operation is not None and\n"
  "                cached_operation.func_name == operation.func_name and")])
M('g-key-free-dropped', ['C01', 'C08'], ['R1.4', 'R8.4'], [(FB,
  "        if self._new_cache.has_subbuild(subbuild_key):\n            return False\n", "")])
M('g-setup-failed-dropped', ['C01', 'C08', 'C14'], ['R1.4', 'R8.5', 'R14.5'], [(FB,
  "                (not operation.raised and\n"
  "                    not self._is_build_file_cached(operation)) or\n\n"
  "                # If setup failed, then the conditions that gave rise to the\n"
  "                # failure might no longer hold. See SetupFailedTest for\n"
  "                # examples.\n"
  "                operation.setup_failed):",
  "                (not operation.raised and\n"
  "                    not self._is_build_file_cached(operation))):")])
M('g-replay-dropped-top-file', ['C01', 'C05'], ['R1.4', 'R5.2'], [(FB,
  "                self._is_build_file_cached(cached_operation) and\n"
  "                self._are_suboperations_cached(\n"
  "                    cached_operation, CreatedFiles())):\n"
  "            return cached_operation",
  "                self._is_build_file_cached(cached_operation)):\n"
  "            return cached_operation")])

# ---- C01 -------------------------------------------------------------------
M('c01-append-only-on-success', ['C01', 'C17'], ['R1.2', 'R17.4'], [(FB,
  "        except OSError as exception:\n"
  "            operation.exception_type_str = exception.__class__.__name__\n"
  "            raise\n"
  "        finally:\n"
  "            operation.is_finished = True\n"
  "            self._append_suboperation(operation)\n",
  "        except OSError as exception:\n"
  "            operation.exception_type_str = exception.__class__.__name__\n"
  "            raise\n"
  "        operation.is_finished = True\n"
  "        self._append_suboperation(operation)\n")],
  'a failing query is no longer recorded')
M('c01-unrecorded-probe', 'C01', 'R1.2', [(FB,
  "        return self._exec_simple_operation(\n"
  "            SimpleOperation(\n"
  "                'exists', [FileBuilder._sanitize_filename(filename)]))",
  "        filename = FileBuilder._sanitize_filename(filename)\n"
  "        if self._simple_operation_executor.is_cache_file(filename):\n"
  "            return False\n"
  "        if not os.path.lexists(filename):\n"
  "            return False\n"
  "        return self._exec_simple_operation(\n"
  "            SimpleOperation('exists', [filename]))")],
  'fast path that observes the real FS without recording')
M('c01-operations-missing-name', ['C01', 'C05'], ['R1.1', 'R5.5'], [(EX,
  "        'exists', 'get_size', 'is_dir', 'is_file', 'list_dir', 'read', 'walk'",
  "        'exists', 'is_dir', 'is_file', 'list_dir', 'read', 'walk'")])
M('c01-replay-ignores-false', 'C01', 'R1.3', [(FB,
  "                if not self._is_subbuild_operation_cached(\n"
  "                        suboperation, created_files):\n"
  "                    return False",
  "                if not self._is_subbuild_operation_cached(\n"
  "                        suboperation, created_files):\n"
  "                    continue")])
M('c01-reuse-without-register', ['C01', 'C08'], ['R1.5', 'R8.3'], [(FB,
  "            with self._lock:\n"
  "                operation.is_finished = True\n"
  "            self._new_cache.use_cached_operation(operation)\n"
  "        else:\n"
  "            description",
  "            with self._lock:\n"
  "                operation.is_finished = True\n"
  "        else:\n"
  "            description")])
M('c01-reuse-without-apply', 'C01', 'R1.5', [(FB,
  "        self._apply_cached_suboperations(cached_operation)\n"
  "        operation.file_comparison_result = file_comparison_result",
  "        operation.file_comparison_result = file_comparison_result")])
M('c01-commit-skipped-on-empty', 'C01', 'R1.6', [(FB,
  "        self._commit(norm_cased_error_created_dirs)\n        return return_value",
  "        if norm_cased_error_created_dirs:\n"
  "            self._commit(norm_cased_error_created_dirs)\n        return return_value")])
M('c01-writer-renames-key', ['C01', 'C16'], ['R1.7', 'R16.1'], [(CA,
  "            'returnValue': operation.return_value,\n            'suboperations': suboperations_json,",
  "            'result': operation.return_value,\n            'suboperations': suboperations_json,")])

# ---- C02 -------------------------------------------------------------------
M('c02-handler-wraps-exception', ['C02', 'C10'], ['R2.2', 'R10.2'], [(FB,
  "        except Exception:\n            self._handle_error_building_file()\n            raise\n",
  "        except Exception as exception:\n            self._handle_error_building_file()\n"
  "            raise RuntimeError('build_file failed') from exception\n")])
M('c02-func-inside-typeerror-try', 'C02', 'R2.2', [(FB,
  "        return_value = func(*args, **kwargs)\n        try:\n            return JsonUtil.sanitize(return_value)",
  "        try:\n            return_value = func(*args, **kwargs)\n            return JsonUtil.sanitize(return_value)")])
M('c02-create-dirs-propagates', ['C02', 'C03'], ['R2.3', 'R3.5'], [(FB,
  "            try:\n                os.mkdir(dir_)\n            except OSError:\n"
  "                if not os.path.isdir(dir_):\n"
  "                    logger.error(\n"
  "                        'Failed to create directory {:s}'.format(dir_),\n"
  "                        exc_info=True)\n                continue\n",
  "            if os.path.isdir(dir_):\n                continue\n            os.mkdir(dir_)\n")])
M('c02-no-backup-before-rebuild', ['C02', 'C03'], ['R2.4', 'R3.5'], [(FB,
  "            if (os.path.isfile(filename) and\n"
  "                    self._backups.back_up_and_remove(filename)):\n"
  "                logger.info(\n"
  "                    'Moved {:s} to a temporary directory, in preparation for '\n"
  "                    'rebuilding the file'.format(filename))\n", "")])
M('c02-backups-copy', ['C02', 'C03'], ['R2.6', 'R3.5'], [(BK,
  "            os.rename(filename, backup_filename)",
  "            shutil.copy2(filename, backup_filename)\n            os.remove(filename)")])
M('c02-rollback-forgets-error-dirs', 'C02', 'R2.8', [(FB,
  "        dirs_to_remove.update(self._build_dirs.norm_cased_error_created_dirs())\n"
  "        for dir_ in self._old_cache.created_dirs():\n"
  "            dirs_to_remove.discard(os.path.normcase(dir_))\n\n"
  "        for filename in self._new_cache.created_files():",
  "        for dir_ in self._old_cache.created_dirs():\n"
  "            dirs_to_remove.discard(os.path.normcase(dir_))\n\n"
  "        for filename in self._new_cache.created_files():")])
M('c02-no-compensation', ['C02', 'C14', 'C16'], ['R2.9', 'R14.2', 'R16.4'], [(FB,
  "            if started_writing_cache:\n"
  "                # Don't leave a partially written cache file behind. (The old\n"
  "                # cache file, if any, is in _backups at this point.)\n"
  "                FileBuilder._try_to_remove_file(cache_filename)\n", "")])
M('c02-writer-temp-file-not-compensated', ['C02', 'C14', 'C16'],
  ['R2.9', 'R14.2', 'R16.4'], [(CA,
  "        with gzip.open(filename, 'wt') as file_:\n"
  "            # Sort keys in order to improve compression\n"
  "            file_.write(\n"
  "                json.dumps(cache_json, separators=(',', ':'), sort_keys=True))\n",
  "        temp_filename = filename + '.tmp'\n"
  "        with gzip.open(temp_filename, 'wt') as file_:\n"
  "            file_.write(\n"
  "                json.dumps(cache_json, separators=(',', ':'), sort_keys=True))\n"
  "        os.replace(temp_filename, filename)\n")],
  'the writer creates <name>.tmp, the failure handler removes only <name>')
M('c02-backup-ticket-from-length', ['C02', 'C09', 'C03'],
  ['R2.6b', 'R9.7', 'R3.5'], [(BK,
  "            value = self._next_backup_index\n"
  "            self._next_backup_index += 1\n",
  "            value = len(self._backups)\n")],
  'the slot comes from the length of a list that grows in a later critical '
  'section: two threads share a slot')
M('c02-write-outside-try', ['C02', 'C14'], ['R2.1', 'R14.2'], [(FB,
  "            self._new_cache.write(cache_filename)\n"
  "            logger.info('Wrote cache file {:s}'.format(cache_filename))\n"
  "        except Exception:\n"
  "            self._is_finished_build = True\n"
  "            if started_writing_cache:\n"
  "                # Don't leave a partially written cache file behind. (The old\n"
  "                # cache file, if any, is in _backups at this point.)\n"
  "                FileBuilder._try_to_remove_file(cache_filename)\n"
  "            self._roll_back(cache_file_created_dirs)\n"
  "            raise\n",
  "        except Exception:\n"
  "            self._is_finished_build = True\n"
  "            if started_writing_cache:\n"
  "                FileBuilder._try_to_remove_file(cache_filename)\n"
  "            self._roll_back(cache_file_created_dirs)\n"
  "            raise\n"
  "        self._new_cache.write(cache_filename)\n"
  "        logger.info('Wrote cache file {:s}'.format(cache_filename))\n")])

# ---- C03 -------------------------------------------------------------------
M('c03-rmtree-in-make-room', 'C03', 'R3.1', [(FB,
  "        try:\n            os.rmdir(dir_)\n        except OSError:\n"
  "            # e.g. a subfile was created externally or in another thread\n",
  "        try:\n            import shutil\n            shutil.rmtree(dir_)\n        except OSError:\n"
  "            # e.g. a subfile was created externally or in another thread\n")])
M('c03-make-dirs-moves-foreign-file', 'C03', 'R3.2', [(FB,
  "                if (os.path.isfile(parent) and\n"
  "                        self._old_cache.created_norm_cased_file(\n"
  "                            os.path.normcase(parent)) and\n"
  "                        self._backups.back_up_and_remove(parent)):",
  "                if (os.path.isfile(parent) and\n"
  "                        self._backups.back_up_and_remove(parent)):")])
M('c03-commit-removes-listdir', 'C03', 'R3.2', [(FB,
  "        dirs_to_remove = set(norm_cased_error_created_dirs)\n"
  "        for dir_ in self._old_cache.created_dirs():",
  "        dirs_to_remove = set(norm_cased_error_created_dirs)\n"
  "        for dir_ in self._old_cache.created_dirs():\n"
  "            if os.path.isdir(dir_):\n"
  "                for name in os.listdir(dir_):\n"
  "                    FileBuilder._try_to_remove_file(\n"
  "                        os.path.join(dir_, name))\n"
  "        for dir_ in self._old_cache.created_dirs():")])
M('c03-remove-without-isfile', 'C03', 'R3.1', [(FB,
  "        if os.path.isfile(filename):\n            try:\n                os.remove(filename)",
  "        if os.path.lexists(filename):\n            try:\n                os.remove(filename)")])
M('c03-commit-unguarded', ['C03'], 'R3.2', [(FB,
  "            if (not self._simple_operation_executor.is_file(filename) and\n"
  "                    not self._simple_operation_executor.is_cache_file(\n"
  "                        filename)):\n"
  "                FileBuilder._try_to_remove_file(filename)",
  "            if not self._simple_operation_executor.is_cache_file(filename):\n"
  "                FileBuilder._try_to_remove_file(filename)")])

# ---- C04 -------------------------------------------------------------------
M('c04-exists-file-only', 'C04', 'R4.1', [(EX,
  "        return (\n            self.is_file(filename, created_files) or\n"
  "            self.is_dir(filename, created_files))",
  "        return self.is_file(filename, created_files)")])
M('c04-second-kernel', 'C04', 'R4.2', [(EX,
  "        self._assert_exists(filename, created_files)\n        return os.path.getsize(filename)",
  "        if not os.path.exists(filename):\n            self._assert_exists(filename, created_files)\n"
  "        return os.path.getsize(filename)")])
M('c04-listing-unfiltered', 'C04', 'R4.3', [(EX,
  "            if self.exists(absolute_subfile, created_files):\n                subfiles.append(subfile)",
  "            subfiles.append(subfile)")])
M('c04-error-class-unjustified', ['C04', 'C01'], ['R4.4', 'R1.8'], [(EX,
  "        if not self.is_dir(filename, created_files):\n"
  "            if self.is_file(filename, created_files):\n"
  "                raise NotADirectoryError(",
  "        if not self.is_dir(filename, created_files):\n"
  "            if os.path.lexists(filename):\n"
  "                raise NotADirectoryError(")])
M('c04-stale-output-visible', 'C04', 'R4.5', [(EX,
  "        elif self._old_cache.created_norm_cased_file(norm_cased_filename):\n            return False\n",
  "")])

# ---- C05 -------------------------------------------------------------------
M('c05-unsorted-listing', 'C05', 'R5.1', [(EX,
  "        return sorted(subfiles)", "        return subfiles")])
M('c05-overlay-dropped-in-walk', 'C05', 'R5.4', [(EX,
  "            elif self.is_dir(absolute_subfile, created_files):\n                subdirs.append(subfile)",
  "            elif self.is_dir(absolute_subfile):\n                subdirs.append(subfile)")])
M('c05-backup-before-reuse', 'C05', 'R5.3', [(FB,
  "            if self._try_to_reuse_cached_file():\n                return operation.return_value\n\n"
  "            if (os.path.isfile(filename) and\n"
  "                    self._backups.back_up_and_remove(filename)):\n"
  "                logger.info(\n"
  "                    'Moved {:s} to a temporary directory, in preparation for '\n"
  "                    'rebuilding the file'.format(filename))\n",
  "            moved = (os.path.isfile(filename) and\n"
  "                     self._backups.back_up_and_remove(filename))\n"
  "            if self._try_to_reuse_cached_file():\n                return operation.return_value\n\n")])

# ---- C07 -------------------------------------------------------------------
M('c07-raw-path-open', ['C07'], 'R7.1', [(FB,
  "    def read_text(self, filename, file_comparison=FileComparison.METADATA):",
  "    def read_text(self, filename, file_comparison=FileComparison.METADATA,\n"
  "                  _raw=None):"),
  (FB,
  "        filename = FileBuilder._sanitize_filename(filename)\n"
  "        if not isinstance(file_comparison, FileComparison):\n"
  "            raise TypeError(\n"
  "                'file_comparison must be an instance of FileComparison')\n"
  "        self._exec_simple_operation(\n"
  "            SimpleOperation('read', [filename, file_comparison.name]))\n"
  "        return open(filename, 'r')",
  "        raw = filename\n"
  "        filename = FileBuilder._sanitize_filename(filename)\n"
  "        if not isinstance(file_comparison, FileComparison):\n"
  "            raise TypeError(\n"
  "                'file_comparison must be an instance of FileComparison')\n"
  "        self._exec_simple_operation(\n"
  "            SimpleOperation('read', [filename, file_comparison.name]))\n"
  "        return open(raw, 'r')")])
M('c07-key-without-kwargs', 'C07', 'R7.3', [(CA,
  "        return JsonUtil.to_hashable([\n            operation.func_name, operation.args, operation.kwargs])",
  "        return JsonUtil.to_hashable([\n            operation.func_name, operation.args])")])

# ---- C08 / C09 / C17 -------------------------------------------------------
M('c08-split-check-claim', ['C08'], 'R8.2', [(CA,
  "        with self._files_lock:\n"
  "            self._assert_doesnt_have_norm_cased_file(\n"
  "                norm_cased_filename, filename)\n"
  "            self._files[filename] = None\n"
  "            self._norm_cased_files[norm_cased_filename] = None",
  "        with self._files_lock:\n"
  "            self._assert_doesnt_have_norm_cased_file(\n"
  "                norm_cased_filename, filename)\n"
  "        with self._files_lock:\n"
  "            self._files[filename] = None\n"
  "            self._norm_cased_files[norm_cased_filename] = None")])
M('c08-claim-after-user', ['C08', 'C10'], ['R8.3', 'R10.1'], [(FB,
  "            self._new_cache.start_building_file(filename)\n        except Exception:\n"
  "            self._build_dirs.error_building_file(filename)\n            raise\n",
  "        except Exception:\n"
  "            self._build_dirs.error_building_file(filename)\n            raise\n")])
M('c08-reader-registers-setup-failed', 'C08', 'R8.5', [(CA,
  "            if not operation.setup_failed:\n                subbuild_key = Cache.subbuild_key(operation)\n"
  "                subbuilds[subbuild_key] = operation\n            return operation",
  "            subbuild_key = Cache.subbuild_key(operation)\n"
  "            subbuilds[subbuild_key] = operation\n            return operation")])
M('c09-lock-order', 'C09', 'R9.1', [(CA,
  "        with self._files_lock, self._subbuilds_lock:\n            self._assert_no_repeats(operation)",
  "        with self._subbuilds_lock, self._files_lock:\n            self._assert_no_repeats(operation)")])
M('c09-hash-cache-unlocked', 'C09', 'R9.3', [(EX,
  "        with self._hash_cache_lock:\n            cache_entry = self._hash_cache.get(norm_cased_filename)",
  "        cache_entry = self._hash_cache.get(norm_cased_filename)")])
M('c09-mutate-old-cache', 'C09', 'R9.4', [(FB,
  "        with self._lock:\n            operation.is_finished = True\n"
  "        self._new_cache.finish_building_file(operation)\n\n"
  "        if self._old_cache.created_file(filename):",
  "        with self._lock:\n            operation.is_finished = True\n"
  "        self._old_cache.finish_building_file(operation)\n\n"
  "        if self._old_cache.created_file(filename):")])
M('c09-user-under-lock', 'C09', 'R9.2', [(FB,
  "            try:\n                operation.return_value = self._call_and_sanitize_return_value(\n"
  "                    func, [self] + copy.deepcopy(operation.args),\n"
  "                    copy.deepcopy(operation.kwargs), description)\n",
  "            try:\n                with self._lock:\n"
  "                    operation.return_value = (\n"
  "                        self._call_and_sanitize_return_value(\n"
  "                            func, [self] + copy.deepcopy(operation.args),\n"
  "                            copy.deepcopy(operation.kwargs), description))\n")])
M('c17-no-fence-subbuild', 'C17', 'R17.1', [(FB,
  "        self._assert_not_finished()\n        if not isinstance(func_name, str):\n"
  "            raise TypeError('Function name must be a string')\n"
  "        if not callable(func):\n            raise TypeError('\"func\" must be callable')\n"
  "        sanitized_args, sanitized_kwargs = FileBuilder._sanitize_args(\n"
  "            args, kwargs, 'the subbuild function {:s}'.format(func_name))",
  "        if not isinstance(func_name, str):\n"
  "            raise TypeError('Function name must be a string')\n"
  "        if not callable(func):\n            raise TypeError('\"func\" must be callable')\n"
  "        sanitized_args, sanitized_kwargs = FileBuilder._sanitize_args(\n"
  "            args, kwargs, 'the subbuild function {:s}'.format(func_name))")])
M('c17-close-unlocked', 'C17', 'R17.2', [(FB,
  "            finally:\n                with self._lock:\n                    operation.is_finished = True\n",
  "            finally:\n                operation.is_finished = True\n")])

# ---- C10 / C14 -------------------------------------------------------------
M('c10-handler-keeps-file', 'C10', 'R10.2', [(FB,
  "        self._build_dirs.error_building_file(filename)\n"
  "        FileBuilder._try_to_remove_file(filename)\n"
  "        logger.warning(",
  "        self._build_dirs.error_building_file(filename)\n"
  "        logger.warning(")])
M('c10-no-verification', 'C10', 'R10.1', [(FB,
  "            if operation.file_comparison_result is None:\n"
  "                raise RuntimeError(\n"
  "                    \"The build_file* call for {:s} didn't create that \"\n"
  "                    'file'.format(filename))\n", "")])
M('c14-double-release', 'C14', 'R14.1', [(FB,
  "            self._new_cache.start_building_file(filename)\n        except Exception:\n"
  "            self._build_dirs.error_building_file(filename)\n            raise\n\n"
  "        self._rebuild_file(func)\n        return operation.return_value",
  "            self._new_cache.start_building_file(filename)\n"
  "            self._rebuild_file(func)\n        except Exception:\n"
  "            self._build_dirs.error_building_file(filename)\n            raise\n\n"
  "        return operation.return_value")])
M('c14-backup-unregistered', 'C14', 'R14.4', [(BK,
  "        with self._lock:\n            self._backups.append((filename, backup_filename))\n        return True",
  "        if value % 2 == 0:\n            with self._lock:\n"
  "                self._backups.append((filename, backup_filename))\n        return True")])

# ---- C12 / C13 / C16 / C18 ---------------------------------------------------
M('c12-clean-mkdir', 'C12', 'R12.1', [(FB,
  "        FileBuilder._try_to_remove_file(cache_filename)\n        FileBuilder._remove_empty_dirs(cache.created_dirs())",
  "        FileBuilder._try_to_remove_file(cache_filename)\n"
  "        FileBuilder._create_dirs([])\n"
  "        FileBuilder._remove_empty_dirs(cache.created_dirs())")])
M('c12-clean-keeps-cache-file', 'C12', 'R12.3', [(FB,
  "        FileBuilder._try_to_remove_file(cache_filename)\n        FileBuilder._remove_empty_dirs(cache.created_dirs())",
  "        if cache.created_files():\n            FileBuilder._try_to_remove_file(cache_filename)\n"
  "        FileBuilder._remove_empty_dirs(cache.created_dirs())")])
M('c12-created-dirs-not-persisted', 'C12', 'R12.4', [(FB,
  "        self._new_cache.add_created_dirs(created_dirs)\n        return list(norm_cased_error_created_dirs)",
  "        if norm_cased_error_created_dirs:\n            self._new_cache.add_created_dirs(created_dirs)\n"
  "        return list(norm_cased_error_created_dirs)")])
M('c12-dirs-shortest-first', 'C12', 'R12.5', [(FB,
  "        sorted_dirs = sorted(dirs, key=lambda dir_: -len(dir_))",
  "        sorted_dirs = sorted(dirs, key=lambda dir_: len(dir_))")])
M('c13-float-mtime', 'C13', 'R13.2', [(EX,
  "            'timeNs': stats.st_mtime_ns,", "            'timeNs': stats.st_mtime,")])
M('c13-metadata-drops-size', 'C13', 'R13.2', [(EX,
  "            'size': stats.st_size,\n", "")])
M('c13-memo-hit-unguarded', 'C13', 'R13.3', [(EX,
  "        if cache_entry is not None and cache_entry[1] == is_built:",
  "        if cache_entry is not None:")])
M('c13-integrity-wrong-mode', 'C13', 'R13.4', [(FB,
  "            file_comparison_result = self._noneable_file_comparison_result(\n"
  "                operation.filename, operation.file_comparison)\n"
  "            return JsonUtil.is_equal(",
  "            file_comparison_result = self._noneable_file_comparison_result(\n"
  "                operation.filename, self._operation.file_comparison)\n"
  "            return JsonUtil.is_equal(")])
M('c16-drop-setup-failed-key', 'C16', 'R16.1', [(CA,
  "        if operation.setup_failed:\n            operation_json['setupFailed'] = True\n", "")])
M('c16-raised-default-true', 'C16', 'R16.1', [(CA,
  "                operation_json['returnValue'],\n"
  "                operation_json.get('raised', False),\n"
  "                operation_json.get('setupFailed', False), True)\n\n"
  "            if not operation.setup_failed:\n                subbuild_key",
  "                operation_json['returnValue'],\n"
  "                operation_json.get('raised', True),\n"
  "                operation_json.get('setupFailed', False), True)\n\n"
  "            if not operation.setup_failed:\n                subbuild_key")])
M('c16-created-dirs-key-mismatch', ['C16', 'C12'], ['R16.2', 'R12.4b'], [(CA,
  "            'createdDirs': created_dirs,", "            'dirs': created_dirs,")])
M('c16-json-default', 'C16', 'R16.3', [(CA,
  "                json.dumps(cache_json, separators=(',', ':'), sort_keys=True))",
  "                json.dumps(cache_json, separators=(',', ':'), sort_keys=True,\n"
  "                           default=str))")])
M('c18-sanitize-passes-list', ['C18'], ['R18.1'], [(JU,
  "        if (cls == str or cls == int or cls == float or cls == bool or\n                value is None):\n            return value",
  "        if (cls == str or cls == int or cls == float or cls == bool or\n"
  "                value is None or (cls == list and not value)):\n            return value")])
M('c18-sanitize-passthrough-else', 'C18', 'R18.2', [(JU,
  "        elif isinstance(value, float):\n            return float(value)\n"
  "        else:\n            raise TypeError('The value is not a JSON value')",
  "        elif isinstance(value, float):\n            return float(value)\n"
  "        else:\n            return str(value)")])
M('c18-to-hashable-no-bool', ['C18', 'C07'], ['R18.3', 'R7.6'], [(JU,
  "        elif cls == bool:\n            # Booleans are special, because True == 1 and False == 0\n"
  "            if value:\n                return (1,)\n            else:\n                return (2,)\n"
  "        else:\n            return value",
  "        else:\n            return value")])
M('c18-is-equal-no-len', ['C18', 'C07'], ['R18.5', 'R7.6'], [(JU,
  "            if ((class2 != list and class2 != tuple) or\n                    len(value1) != len(value2)):\n                return False",
  "            if (class2 != list and class2 != tuple):\n                return False")])

# ---- later additions ---------------------------------------------------------
M('c05-overlay-not-started', ['C05', 'C01'], ['R5.6', 'R1.4'], [(FB,
  "        created_files.started_building_file(filename)\n\n"
  "        if not self._are_suboperations_cached(operation, created_files):",
  "        if not self._are_suboperations_cached(operation, created_files):")])
M('c05-overlay-closed-wrong-way', 'C05', 'R5.6', [(FB,
  "        if operation.raised:\n            created_files.error_building_file(filename)\n"
  "        else:\n            created_files.finished_building_file(filename)\n        return True",
  "        if not operation.raised:\n            created_files.error_building_file(filename)\n"
  "        else:\n            created_files.finished_building_file(filename)\n        return True")])
M('c08-repeat-test-skips-build-file-subtrees', 'C08', 'R8.2b', [(CA,
  "        for suboperation in operation.suboperations:\n"
  "            if isinstance(suboperation, ComplexOperation):\n"
  "                self._assert_no_repeats(suboperation)",
  "        for suboperation in operation.suboperations:\n"
  "            if isinstance(suboperation, SubbuildOperation):\n"
  "                self._assert_no_repeats(suboperation)")])
M('c16-serialiser-skips-raised-children', 'C16', 'R16.6', [(CA,
  "        for suboperation in operation.suboperations:\n"
  "            suboperations_json.append(self._operation_to_json(suboperation))",
  "        for suboperation in operation.suboperations:\n"
  "            if isinstance(suboperation, SimpleOperation) and \\\n"
  "                    suboperation.exception_type_str is not None:\n"
  "                continue\n"
  "            suboperations_json.append(self._operation_to_json(suboperation))")])
M('c16-non-root-from-files-only', 'C16', 'R16.6', [(CA,
  "        for operation in operations:\n            non_root_operations.update(operation.suboperations)",
  "        for operation in operations:\n            if operation.suboperations:\n"
  "                non_root_operations.update(operation.suboperations[:1])")])

# ---- round-2 driven rules ------------------------------------------------------
M('c09-ownership-break-first', ['C09', 'C12'], ['R9.6', 'R12.7'], [(BD,
  "                if count > 0:\n"
  "                    # Another thread reserved this directory before us. It\n"
  "                    # might not have registered the directory as created (if\n"
  "                    # it merely observed the directory we had just created),\n"
  "                    # so make sure someone owns the directories we created.\n"
  "                    for dir_ in created_dirs:\n"
  "                        norm_cased_dir = os.path.normcase(dir_)\n"
  "                        if norm_cased_dir not in self._created_dirs_map:\n"
  "                            self._created_dirs_map[norm_cased_dir] = dir_\n"
  "                            self._error_created_dirs.discard(norm_cased_dir)\n"
  "                            self._removed_files.discard(norm_cased_dir)\n"
  "                            locked_created_dirs.append(dir_)\n"
  "                    break\n",
  "                if count > 0:\n                    break\n")],
  'reverts the ownership fix 3dd2752')
M('c09-ticket-split', ['C09', 'C02', 'C03'], ['R9.7', 'R2.6b', 'R3.5'], [(BK,
  "        with self._lock:\n            value = self._next_backup_index\n"
  "            self._next_backup_index += 1\n",
  "        with self._lock:\n            value = self._next_backup_index\n"),
  (BK,
  "        with self._lock:\n            self._backups.append((filename, backup_filename))\n        return True",
  "        with self._lock:\n            self._next_backup_index += 1\n"
  "            self._backups.append((filename, backup_filename))\n        return True")])
M('c15-reader-skips-software-tag', 'C15', 'R15.6', [(CA,
  "        if (not isinstance(cache_json, dict) or\n"
  "                cache_json.get('software') != Cache._SOFTWARE):",
  "        if not isinstance(cache_json, dict):")])
M('c12-dirs-before-cache-file', 'C12', 'R12.3b', [(FB,
  "        FileBuilder._try_to_remove_file(cache_filename)\n        FileBuilder._remove_empty_dirs(cache.created_dirs())",
  "        FileBuilder._remove_empty_dirs(cache.created_dirs())\n        FileBuilder._try_to_remove_file(cache_filename)")])
M('c16-versions-filtered', ['C16', 'C06'], ['R16.2', 'R6.5'], [(CA,
  "            'funcVersions': self._func_versions,",
  "            'funcVersions': {k: v for k, v in self._func_versions.items()\n"
  "                             if v is not None},")])
M('c08-finish-after-failed-claim', ['C08', 'C09'], ['R8.3', 'R9.9'], [(FB,
  "            self._new_cache.start_subbuild(subbuild_key, operation)\n            try:\n"
  "                operation.return_value = self._call_and_sanitize_return_value(",
  "            try:\n                self._new_cache.start_subbuild(subbuild_key, operation)\n"
  "                operation.return_value = self._call_and_sanitize_return_value(")])
M('c08-presence-test-by-value', 'C08', 'R8.2', [(CA,
  "        if norm_cased_filename in self._norm_cased_files:\n            raise RuntimeError(",
  "        if self._norm_cased_files.get(norm_cased_filename) is not None:\n            raise RuntimeError(")])
M('c16-reader-encoding-mismatch', ['C16', 'C15'], ['R16.3', 'R15.6'], [(CA,
  "        with gzip.open(filename, 'wt') as file_:",
  "        with gzip.open(filename, 'wt', encoding='utf-8',\n"
  "                       errors='surrogateescape') as file_:")])
M('c10-conditional-release', ['C10', 'C14', 'C09'], ['R10.2', 'R14.1', 'R9.8'], [(FB,
  "            self._new_cache.start_building_file(filename)\n        except Exception:\n"
  "            self._build_dirs.error_building_file(filename)\n            raise\n",
  "            self._new_cache.start_building_file(filename)\n        except Exception:\n"
  "            if locked_created_dirs:\n"
  "                self._build_dirs.error_building_file(filename)\n            raise\n")])

# ---- R18.6 (key collisions) -------------------------------------------------
M('c18-sanitize-setdefault', 'C18', 'R18.6', [(JU,
  "                result[JsonUtil._key_to_str(key)] = JsonUtil.sanitize(subvalue)\n",
  "                result.setdefault(\n"
  "                    JsonUtil._key_to_str(key), JsonUtil.sanitize(subvalue))\n")],
  'first member wins among colliding keys')
M('c18-sanitize-first-wins-guard', 'C18', 'R18.6', [(JU,
  "                result[JsonUtil._key_to_str(key)] = JsonUtil.sanitize(subvalue)\n",
  "                str_key = JsonUtil._key_to_str(key)\n"
  "                if str_key not in result:\n"
  "                    result[str_key] = JsonUtil.sanitize(subvalue)\n")])
M('c18-sanitize-reversed-items', 'C18', 'R18.6', [(JU,
  "            for key, subvalue in value.items():\n                result[JsonUtil._key_to_str(key)]",
  "            for key, subvalue in reversed(list(value.items())):\n                result[JsonUtil._key_to_str(key)]")])

# ---- R4.8 / R14.7 (reference-count walks) -----------------------------------
M('c04-refcount-reserve-threshold', ['C04', 'C14'], ['R4.8', 'R14.7'], [(BD,
  "                self._build_dir_counts[norm_cased_parent] = count + 1\n                if count > 0:",
  "                self._build_dir_counts[norm_cased_parent] = count + 1\n                if count > 1:")],
  'second reservation of a directory bumps the ancestors again')
M('c04-refcount-release-threshold', ['C04', 'C14'], ['R4.8', 'R14.7'], [(BD,
  "                count = self._build_dir_counts[parent] - 1\n                if count > 0:",
  "                count = self._build_dir_counts[parent] - 1\n                if count > 1:")])
M('c04-refcount-release-keeps-zero', ['C04', 'C14'], ['R4.8', 'R14.7'], [(BD,
  "                self._build_dir_counts.pop(parent)\n",
  "                self._build_dir_counts[parent] = 0\n")],
  'a zero count stays in the map: membership tests see a reservation')
M('c04-refcount-release-never-stops', ['C04', 'C14'], ['R4.8', 'R14.7'], [(BD,
  "                if count > 0:\n                    self._build_dir_counts[parent] = count\n                    break\n",
  "                if count > 0:\n                    self._build_dir_counts[parent] = count\n                    prev_parent = parent\n                    parent = os.path.dirname(parent)\n                    continue\n")])

# ---- rules that came out of the mutation survey (tools/mutate.py) -----------
M('c14-handoff-condition-negated', ['C14', 'C10'], ['R14.3', 'R10.4'], [(BD,
  "                if norm_cased_dir not in self._build_dir_counts:\n"
  "                    self._error_created_dirs.add(norm_cased_dir)",
  "                if norm_cased_dir in self._build_dir_counts:\n"
  "                    self._error_created_dirs.add(norm_cased_dir)")])
M('c14-handoff-not-virtually-removed', ['C14', 'C10'], ['R14.3', 'R10.4'],
  [(BD,
    "                    self._error_created_dirs.add(norm_cased_dir)\n"
    "                    self._maybe_removed_dirs.add(norm_cased_dir)\n"
    "            if created_dirs:",
    "                    self._error_created_dirs.add(norm_cased_dir)\n"
    "            if created_dirs:")])
M('c09-mutable-cache-null-locks', 'C09', 'R9.3', [(CA,
  "        if is_mutable:\n            self._files_lock = threading.Lock()",
  "        if not is_mutable:\n            self._files_lock = threading.Lock()")])
M('c03-created-file-polarity', ['C03'], 'R3.2', [(CA,
  "            operation = self._files.get(filename)\n"
  "        return operation is not None and not operation.raised",
  "            operation = self._files.get(filename)\n"
  "        return operation is not None and operation.raised")])
M('c02-restore-loop-break', ['C02', 'C03'], ['R2.3', 'R3.5'], [(BK,
  "                    'Failed to restore old contents of {:s}'.format(filename),\n"
  "                    exc_info=True)\n                continue",
  "                    'Failed to restore old contents of {:s}'.format(filename),\n"
  "                    exc_info=True)\n                break")])
M('c02-remove-empty-dirs-break', ['C02'], 'R2.3', [(FB,
  "                os.rmdir(dir_)\n            except OSError:\n                continue",
  "                os.rmdir(dir_)\n            except OSError:\n                break")])
M('c12-cache-file-dirs-condition', 'C12', 'R12.4', [(FB,
  "            if norm_cased_dir not in norm_cased_created_dirs:\n                created_dirs.append(dir_)",
  "            if norm_cased_dir in norm_cased_created_dirs:\n                created_dirs.append(dir_)")])
M('c14-apply-handler-no-release', 'C14', 'R14.1', [(FB,
  "                    self._apply_cached_suboperations(suboperation)\n"
  "                except Exception:\n"
  "                    self._build_dirs.error_building_file(filename)\n"
  "                    raise",
  "                    self._apply_cached_suboperations(suboperation)\n"
  "                except Exception:\n"
  "                    raise")])
M('c05-listing-root-guard-negated', ['C05', 'C01'], ['R5.8', 'R1.10'], [(CF,
  "        if norm_cased_dir_name == norm_cased_filename:\n            return False\n"
  "        subfiles = self._norm_cased_dir_to_subfiles[norm_cased_dir_name]",
  "        if norm_cased_dir_name != norm_cased_filename:\n            return False\n"
  "        subfiles = self._norm_cased_dir_to_subfiles[norm_cased_dir_name]")])
M('c05-listing-verdict-flipped', ['C05', 'C01'], ['R5.8', 'R1.10'], [(CF,
  "        if subfiles:\n            return False\n        else:\n"
  "            self._norm_cased_dir_to_subfiles.pop(norm_cased_dir_name)\n            return True",
  "        if subfiles:\n            return True\n        else:\n"
  "            self._norm_cased_dir_to_subfiles.pop(norm_cased_dir_name)\n            return False")])
M('c05-finished-file-not-listed', ['C05', 'C01'], ['R5.8', 'R1.10'], [(CF,
  "        self._norm_cased_files.add(os.path.normcase(filename))\n        self._add_to_subfiles(filename)\n",
  "        self._norm_cased_files.add(os.path.normcase(filename))\n")])
# ---- rules added after round 7 / the operand survey -------------------------
M('c02-rollback-exempts-new-dirs', 'C02', 'R2.8', [(FB,
  "        for dir_ in self._old_cache.created_dirs():\n            dirs_to_remove.discard(",
  "        for dir_ in self._new_cache.created_dirs():\n            dirs_to_remove.discard(")],
  'rollback exempts the failed build\'s own directories')
M('c14-release-conditional-record', ['C14', 'C02', 'C12'],
  ['R14.3', 'R2.11', 'R12.10'], [(BD,
  "                if self._created_dirs_map.pop(parent, None) is not None:\n"
  "                    self._error_created_dirs.add(parent)\n"
  "                    self._maybe_removed_dirs.add(parent)\n",
  "                if self._created_dirs_map.pop(parent, None) is not None:\n"
  "                    if parent not in self._removed_dirs:\n"
  "                        self._error_created_dirs.add(parent)\n"
  "                        self._maybe_removed_dirs.add(parent)\n")])
M('c04-apply-own-record', ['C04', 'C01'], ['R4.6', 'R1.9'], [(FB,
  "        self._apply_cached_suboperations(cached_operation)\n"
  "        operation.file_comparison_result = file_comparison_result\n",
  "        self._apply_cached_suboperations(operation)\n"
  "        operation.file_comparison_result = file_comparison_result\n")])
M('c12-cache-file-dirs-other-set', ['C12', 'C16'], ['R12.4', 'R16.7'], [(FB,
  "            if norm_cased_dir not in norm_cased_created_dirs:\n                created_dirs.append(dir_)",
  "            if norm_cased_dir not in norm_cased_error_created_dirs:\n                created_dirs.append(dir_)")])
M('c14-scan-before-memo', ['C14', 'C04', 'C12'], ['R14.9', 'R4.10', 'R12.9'],
  [(BD,
  "            elif norm_cased_dir in self._removed_dirs:\n"
  "                return True\n"
  "            elif norm_cased_dir not in self._maybe_removed_dirs:\n"
  "                return False\n"
  "            else:\n",
  "            elif norm_cased_dir not in self._maybe_removed_dirs:\n"
  "                return norm_cased_dir in self._removed_dirs\n"
  "            else:\n")])
M('c01-subbuild-failure-unmarked', 'C01', 'R1.11', [(FB,
  "            except Exception:\n                operation.raised = True\n                raise\n            finally:",
  "            except Exception:\n                operation.setup_failed = True\n                raise\n            finally:")])
M('c01-returns-other-field', 'C01', 'R1.11', [(FB,
  "        self._rebuild_file(func)\n        return operation.return_value",
  "        self._rebuild_file(func)\n        return operation.file_comparison_result")])
M('c06-opversion-getter-sibling-field', ['C06', 'C01'], ['R6.7', 'R1.11'],
  [(CA,
  "        return self._operation_versions.get(operation_name)",
  "        return self._func_versions.get(operation_name)")])
M('c04-exists-keeps-removed-memo', 'C04', 'R4.11', [(BD,
  "            self._removed_dirs.discard(parent)\n            self._maybe_removed_dirs.discard(parent)",
  "            self._maybe_removed_dirs.discard(parent)\n            self._maybe_removed_dirs.discard(parent)")],
  'the confirmed-removed memo keeps a directory that exists again')
M('c05-case-check-everywhere', 'C05', 'R5.10', [(FB,
  "            not FileBuilder._IS_WINDOWS or\n",
  "")], 'Path.resolve() follows symlinks on every platform')
M('c02-rollback-recreates-before-restore', ['C02', 'C03'], ['R2.7', 'R3.5'], [(FB,
  "        self._backups.restore_all()\n"
  "        FileBuilder._create_dirs(self._old_cache.created_dirs())\n"
  "        logger.info('Rolled back build operation')",
  "        FileBuilder._create_dirs(self._old_cache.created_dirs())\n"
  "        self._backups.restore_all()\n"
  "        logger.info('Rolled back build operation')")],
  'the defect fixed by 515d796: a directory is re-created where a backed-up '
  'file belongs')
M('c02-rollback-restores-before-removal', ['C02', 'C03'], ['R2.7', 'R3.5'], [(FB,
  "        FileBuilder._remove_empty_dirs(list(dirs_to_remove))\n\n"
  "        # Restore the backups before recreating",
  "\n        # Restore the backups before recreating"),
  (FB,
  "        FileBuilder._create_dirs(self._old_cache.created_dirs())\n"
  "        logger.info('Rolled back build operation')",
  "        FileBuilder._create_dirs(self._old_cache.created_dirs())\n"
  "        FileBuilder._remove_empty_dirs(list(dirs_to_remove))\n"
  "        logger.info('Rolled back build operation')")])
# ---- rules added in round 8 ----------------------------------------------
M('c18-equality-with-tolerance', ['C18', 'C06', 'C07', 'C01'],
  ['R18.7', 'R6.6', 'R7.6', 'R1.10'], [(JU,
  "            return value1 == value2\n",
  "            return value1 == value2 or (\n"
  "                value1.__class__ == float and\n"
  "                round(value1, 9) == round(value2, 9))\n")],
  'numbers compared after rounding')
M('c15-version-read-with-default', 'C15', 'R15.6', [(CA,
  "                cache_json['cacheFileVersion'], Cache._CACHE_FILE_VERSION):",
  "                cache_json.get('cacheFileVersion'),\n"
  "                Cache._CACHE_FILE_VERSION):")],
  'a cache file without a version member is accepted')
M('c13-sample-before-visibility', 'C13', 'R13.6', [(EX,
  "        norm_cased_filename = os.path.normcase(filename)\n"
  "        is_file_no_read = self._is_file_no_read(\n"
  "            norm_cased_filename, created_files)\n"
  "        if is_file_no_read is False:",
  "        norm_cased_filename = os.path.normcase(filename)\n"
  "        try:\n"
  "            self.file_comparison_result(filename, file_comparison_name)\n"
  "        except OSError:\n"
  "            pass\n"
  "        is_file_no_read = self._is_file_no_read(\n"
  "            norm_cased_filename, created_files)\n"
  "        if is_file_no_read is False:")],
  'the file is sampled (and its digest memoised) before the view is asked')
M('c18-float-key-through-int', ['C18', 'C07'], ['R18.7', 'R7.6'], [(JU,
  "        elif isinstance(key, int):\n            return repr(key)\n"
  "        elif isinstance(key, float):\n            if key != key:",
  "        elif isinstance(key, (int, float)) and key == key and \\\n"
  "                abs(key) != float('inf') and key == int(key):\n"
  "            return repr(int(key))\n"
  "        elif isinstance(key, float):\n            if key != key:")],
  'integral float keys lose their spelling')
# ---- round 10 --------------------------------------------------------------
M('c13-result-copied-from-cached', 'C13', 'R13.7', [(FB,
  "        self._apply_cached_suboperations(cached_operation)\n"
  "        operation.file_comparison_result = file_comparison_result\n",
  "        self._apply_cached_suboperations(cached_operation)\n"
  "        operation.file_comparison_result = (\n"
  "            cached_operation.file_comparison_result)\n")],
  'the reused record keeps the cached result (possibly of another mode)')
M('c02-sweep-handler-around-loop', ['C02', 'C03'], ['R2.3', 'R3.5'], [(FB,
  "        for dir_ in sorted_dirs:\n"
  "            try:\n"
  "                os.rmdir(dir_)\n"
  "            except OSError:\n"
  "                continue\n"
  "            logger.info('Removed empty directory {:s}'.format(dir_))\n",
  "        try:\n"
  "            for dir_ in sorted_dirs:\n"
  "                os.rmdir(dir_)\n"
  "                logger.info('Removed empty directory {:s}'.format(dir_))\n"
  "        except OSError:\n"
  "            pass\n")],
  'the first directory that cannot be removed ends the sweep')
M('c02-rollback-asks-get-file', ['C02', 'C12'], ['R2.8', 'R12.8'], [(FB,
  "            if not self._old_cache.created_file(filename):\n"
  "                FileBuilder._try_to_remove_file(filename)",
  "            if self._old_cache.get_file(filename) is None:\n"
  "                FileBuilder._try_to_remove_file(filename)")],
  'a failed record of the previous build counts as an output')
# ---- round 11 --------------------------------------------------------------
M('c18-int-subclass-through-float', ['C18', 'C07'], ['R18.7', 'R7.6'], [(JU,
  "        elif isinstance(value, int):\n            return int(value)\n"
  "        elif isinstance(value, float):\n            return float(value)\n",
  "        elif isinstance(value, (int, float)):\n            return float(value)\n")],
  'an int-subclass instance becomes a float')
M('c18-key-to-str-memoised', 'C18', 'R18.7', [(JU,
  "    @staticmethod\n    def _key_to_str(key):",
  "    @staticmethod\n    @functools.lru_cache(maxsize=None)\n    def _key_to_str(key):"),
  (JU, "class JsonUtil:\n", "import functools\n\n\nclass JsonUtil:\n")],
  'True / 1.0 share one memo entry')
# ---- round 12 --------------------------------------------------------------
M('c14-not-found-handler-too-wide', ['C14', 'C09', 'C03'],
  ['R14.4', 'R9.9', 'R3.5'], [(BK,
  "        os.makedirs(backup_dir, exist_ok=True)\n"
  "        try:\n"
  "            os.rename(filename, backup_filename)\n",
  "        try:\n"
  "            os.makedirs(backup_dir, exist_ok=True)\n"
  "            os.rename(filename, backup_filename)\n")],
  'a failed makedirs of the backup directory reads as "no file"')
M('c09-move-after-existence-test', ['C09', 'C14', 'C03'],
  ['R9.9', 'R14.4', 'R3.5'], [(BK,
  "        try:\n"
  "            os.rename(filename, backup_filename)\n"
  "        except FileNotFoundError:\n"
  "            return False\n",
  "        if not os.path.lexists(filename):\n"
  "            return False\n"
  "        os.rename(filename, backup_filename)\n")],
  'check-then-act: the loser of a race fails with FileNotFoundError')
