"""Must-fire variants: one realistic regression per rule instance.  Each
still compiles; the edit is a snippet replacement on the current tree (a
snippet that no longer occurs exactly once is reported as skipped)."""

FB = 'file_builder.py'
CA = 'cache.py'
EX = 'simple_operation_executor.py'
BD = 'build_dirs.py'
BK = 'file_backups.py'
JU = 'json_util.py'
OP = 'operation.py'
CF = 'created_files.py'

MUTANTS = []


def M(id_, props, expect, edits, what=''):
    if isinstance(props, str):
        props = [props]
    if isinstance(expect, str):
        expect = [expect]
    MUTANTS.append({'id': id_, 'props': props, 'expect': expect,
                    'edits': edits, 'what': what})


# ---- C11 -----------------------------------------------------------------
M('c11-ret-buildfile-nocopy', 'C11', 'R11.1', [(FB,
  "            self._append_suboperation(suboperation)\n"
  "        return copy.deepcopy(suboperation.return_value)\n\n"
  "    def subbuild(",
  "            self._append_suboperation(suboperation)\n"
  "        return suboperation.return_value\n\n"
  "    def subbuild(")], 'build_file returns the record object')
M('c11-ret-simple-nocopy', 'C11', 'R11.1', [(FB,
  "        return copy.deepcopy(operation.return_value)\n",
  "        return operation.return_value\n")])
M('c11-ret-simple-shallow', 'C11', 'R11.1', [(FB,
  "        return copy.deepcopy(operation.return_value)\n",
  "        return list(operation.return_value)\n")],
  'shallow copy only (walk tuples share their lists)')
M('c11-arg-nocopy-args', 'C11', 'R11.1', [(FB,
  "                func, [self, filename] + copy.deepcopy(operation.args),",
  "                func, [self, filename] + operation.args,")])
M('c11-arg-nocopy-kwargs-subbuild', 'C11', 'R11.1', [(FB,
  "                    func, [self] + copy.deepcopy(operation.args),\n"
  "                    copy.deepcopy(operation.kwargs), description)",
  "                    func, [self] + copy.deepcopy(operation.args),\n"
  "                    operation.kwargs, description)")])
M('c11-via-local', 'C11', 'R11.1', [(FB,
  "            self._append_suboperation(suboperation)\n"
  "        return copy.deepcopy(suboperation.return_value)\n\n"
  "    def read_text(",
  "            self._append_suboperation(suboperation)\n"
  "        result = suboperation.return_value\n"
  "        return result\n\n"
  "    def read_text(")])
M('c11-capture-unsanitised-return', 'C11', 'R11.2', [(FB,
  "        try:\n            return JsonUtil.sanitize(return_value)\n",
  "        try:\n            JsonUtil.sanitize(return_value)\n"
  "            return return_value\n")],
  'validates but stores the user object itself')
M('c11-capture-unsanitised-args', 'C11', 'R11.2', [(FB,
  "            return (JsonUtil.sanitize(args), JsonUtil.sanitize(kwargs))",
  "            JsonUtil.sanitize(args)\n"
  "            return (list(args), JsonUtil.sanitize(kwargs))")])
M('c11-capture-versions', 'C11', 'R11.2', [(FB,
  "        new_cache = Cache.create_empty_mutable(build_name, sanitized_versions)",
  "        new_cache = Cache.create_empty_mutable(build_name, versions)")])

# ---- C15 -----------------------------------------------------------------
M('c15-validate-versions-late', 'C15', 'R15.1', [
  (FB, "        sanitized_versions = FileBuilder._sanitize_versions(versions)\n\n", "\n"),
  (FB, "        new_cache = Cache.create_empty_mutable(build_name, sanitized_versions)\n        build_dirs",
       "        new_cache = None\n        build_dirs"),
  (FB, "        with FileBackups() as backups:\n            builder = FileBuilder(",
       "        with FileBackups() as backups:\n"
       "            sanitized_versions = FileBuilder._sanitize_versions(versions)\n"
       "            new_cache = Cache.create_empty_mutable(build_name, sanitized_versions)\n"
       "            builder = FileBuilder("),
  ], 'versions validated after the backup context was entered')
M('c15-clean-remove-before-name-check', 'C15', 'R15.1', [
  (FB, "        cache = Cache.read_immutable(cache_filename)\n"
       "        if build_name is not None and cache.build_name() != build_name:",
       "        cache = Cache.read_immutable(cache_filename)\n"
       "        for filename in cache.created_files():\n"
       "            FileBuilder._try_to_remove_file(filename)\n"
       "        if build_name is not None and cache.build_name() != build_name:")])
M('c15-reader-update-mode', 'C15', 'R15.2', [(CA,
  "            with gzip.open(filename, 'rt') as file_:",
  "            with gzip.open(filename, 'r+t') as file_:")])
M('c15-mkdir-before-read', 'C15', 'R15.1', [(FB,
  "        if os.path.isfile(cache_filename):\n            old_cache = Cache.read_immutable(cache_filename)",
  "        os.makedirs(os.path.dirname(cache_filename), exist_ok=True)\n"
  "        if os.path.isfile(cache_filename):\n            old_cache = Cache.read_immutable(cache_filename)")])
M('c15-backups-not-with', 'C15', 'R15.3', [(FB,
  "        with FileBackups() as backups:\n            builder = FileBuilder(\n                None, old_cache, new_cache, simple_operation_executor, backups,\n                build_dirs)\n            try:\n                return builder._build(cache_filename, func, args, kwargs)\n            finally:\n                builder._is_finished_build = True",
  "        backups = FileBackups().__enter__()\n        if True:\n            builder = FileBuilder(\n                None, old_cache, new_cache, simple_operation_executor, backups,\n                build_dirs)\n            try:\n                return builder._build(cache_filename, func, args, kwargs)\n            finally:\n                builder._is_finished_build = True")])
M('c15-build-effect-before-delegate', 'C15', 'R15.1', [(FB,
  "        return FileBuilder.build_versioned(\n            cache_filename, build_name, {}, func, *args, **kwargs)",
  "        os.makedirs(os.path.dirname(os.path.abspath(cache_filename)), exist_ok=True)\n"
  "        return FileBuilder.build_versioned(\n            cache_filename, build_name, {}, func, *args, **kwargs)")])
