import os, sys, tempfile, shutil
sys.path.insert(0, os.environ.get('VERIF_REPO', '/repo'))
from file_builder import FileBuilder

def tree(root):
    out = {}
    for d, ds, fs in os.walk(root):
        for x in ds: out[os.path.relpath(os.path.join(d, x), root)] = 'dir'
        for x in fs:
            p = os.path.join(d, x); out[os.path.relpath(p, root)] = open(p,'rb').read()
    return out

root = tempfile.mkdtemp()
cache = os.path.join(root, 'cache.gz')
D = os.path.join(root, 'out')

def write(builder, filename, text):
    with open(filename, 'w') as f: f.write(text)

def build1(builder):
    builder.build_file(os.path.join(D, 'a.txt'), 'w', write, 'A')
FileBuilder.build(cache, 'b', build1)
# the user replaces the created directory by a regular file
shutil.rmtree(D)
with open(D, 'w') as f: f.write('USER DATA')
before = tree(root)

def build2(builder):
    builder.build_file(D, 'w', write, 'NEW')   # overwrites the user's file
    raise RuntimeError('boom')
try:
    FileBuilder.build(cache, 'b', build2)
except RuntimeError:
    pass
after = tree(root)
if before == after:
    print('PASS'); sys.exit(0)
print('FAIL before=%r after=%r' % ({k: v for k, v in before.items() if 'cache' not in k}, {k: v for k, v in after.items() if 'cache' not in k})); sys.exit(1)
