import os, sys, tempfile, shutil, traceback, logging
sys.path.insert(0, '/repo')
from file_builder import FileBuilder
from file_builder.created_files import CreatedFiles
logging.disable(logging.CRITICAL)
# direct unit probe of CreatedFiles
cf = CreatedFiles()
cf.started_building_file('/d/o/sub/g.txt'); cf.finished_building_file('/d/o/sub/g.txt')
cf.started_building_file('/d/o/f.txt'); cf.error_building_file('/d/o/f.txt')
print('after f fails: has_dir(/d/o)=', cf.has_norm_cased_dir('/d/o'), 'has_dir(/d/o/sub)=', cf.has_norm_cased_dir('/d/o/sub'), 'has_file g=', cf.has_norm_cased_file('/d/o/sub/g.txt'), 'list_dir(/d)=', cf.list_dir('/d'))
cf.started_building_file('/d/o/sub/h.txt')
try:
    cf.error_building_file('/d/o/sub/h.txt'); print('no crash')
except KeyError as e:
    print('KeyError', e)

d = tempfile.mkdtemp(); cache = os.path.join(d,'c.gz'); log=[]
def w(b, fn): open(fn,'w').write('x')
def bad(b, fn): raise ValueError('boom')
def sub(b):
    log.append('sub')
    b.build_file(os.path.join(d,'o','sub','g.txt'),'w',w)
    try: b.build_file(os.path.join(d,'o','f.txt'),'bad',bad)
    except ValueError: pass
    r = [b.is_dir(os.path.join(d,'o')), b.list_dir(d)]
    try: b.build_file(os.path.join(d,'o','sub','h.txt'),'bad',bad)
    except ValueError: pass
    return r
def root(b): return b.subbuild('sub', sub)
for i in range(3):
    try: print(FileBuilder.build(cache,'n',root), log)
    except Exception: traceback.print_exc(limit=2)
shutil.rmtree(d)
