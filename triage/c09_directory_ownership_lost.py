"""Triage demo (documentation, not a check): the directory-ownership race
behind rule R9.6 / C09 (and C12).

Two threads build d/a.txt and d/b.txt; d does not exist.  Thread A decides to
create d and creates it; before A registers the reservation, thread B decides
(d exists now -> nothing to create) and reserves d first.  A's
BuildDirs.started_building_file then finds count > 0 and breaks out of its
loop *before* looking at its created_dirs argument: nobody records d as
created.  clean leaves d behind; a sequential build never does.

Forced deterministically with two events around
BuildDirs.started_building_file; the library code is unmodified.
Run:  cd /repo && /venv/bin/python /verif/triage/c09_directory_ownership_lost.py
"""
import os
import sys
import tempfile
import threading

sys.path.insert(0, os.getcwd())
from file_builder import FileBuilder            # noqa: E402
from file_builder.build_dirs import BuildDirs   # noqa: E402


def write(builder, filename, text):
    with open(filename, 'w') as f:
        f.write(text)


def run(sequential):
    root = tempfile.mkdtemp()
    cache = os.path.join(root, 'c.gz')
    a_made_dirs = threading.Event()
    b_reserved = threading.Event()
    orig = BuildDirs.started_building_file

    def hooked(self, filename, created_dirs):
        name = os.path.basename(filename)
        if not sequential and name == 'a.txt':
            a_made_dirs.set()           # A has created d, not yet reserved
            b_reserved.wait(10)
        r = orig(self, filename, created_dirs)
        if not sequential and name == 'b.txt':
            b_reserved.set()
        return r

    def build(builder):
        def a():
            builder.build_file(os.path.join(root, 'd', 'a.txt'), 'w', write,
                               'A')

        def b():
            if not sequential:
                a_made_dirs.wait(10)
            builder.build_file(os.path.join(root, 'd', 'b.txt'), 'w', write,
                               'B')
        if sequential:
            a()
            b()
        else:
            ta = threading.Thread(target=a)
            tb = threading.Thread(target=b)
            ta.start()
            tb.start()
            ta.join()
            tb.join()
    BuildDirs.started_building_file = hooked
    try:
        FileBuilder.build(cache, 'demo', build)
    finally:
        BuildDirs.started_building_file = orig
    FileBuilder.clean(cache, 'demo')
    return sorted(os.listdir(root))


if __name__ == '__main__':
    seq = run(True)
    par = run(False)
    print('after clean, sequential build :', seq)
    print('after clean, forced 2-thread schedule:', par)
    print('LEAK' if par != seq else 'no leak')
