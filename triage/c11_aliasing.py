import os, sys, tempfile, shutil
sys.path.insert(0, '/repo')
from file_builder import FileBuilder, FileComparison

d = tempfile.mkdtemp()
cache = os.path.join(d, 'c.gz')
calls = []
def sub(b):
    calls.append('sub'); return [1]
def root(b):
    r = b.subbuild('sub', sub)
    r.append(99)
    return list(r)
print('C11 subbuild return aliasing:')
for i in range(3):
    print('  build', i, FileBuilder.build(cache, 'n', root), 'calls', calls)

# list_dir aliasing
d2 = os.path.join(d, 'in'); os.mkdir(d2); open(os.path.join(d2,'a'),'w').close(); open(os.path.join(d2,'b'),'w').close()
calls2 = []
def sub2(b):
    calls2.append(1)
    l = b.list_dir(d2); l.remove('a'); return len(l)
def root2(b): return b.subbuild('sub2', sub2)
cache2 = os.path.join(d, 'c2.gz')
for i in range(3):
    print('  listdir build', i, FileBuilder.build(cache2, 'n', root2), 'calls', len(calls2))
shutil.rmtree(d)
