import os, sys, tempfile, shutil, threading
sys.path.insert(0, '/repo')
from file_builder import FileBuilder
from file_builder.file_builder import FileBuilder as FB
d = tempfile.mkdtemp(); cache = os.path.join(d,'c.gz'); target=os.path.join(d,'out.txt')
b_may_go = threading.Event(); b_done = threading.Event(); b_in_prepare = threading.Event()
orig = FB._prepare_file_creation
def patched(self):
    if threading.current_thread().name == 'B':
        b_in_prepare.set(); b_may_go.wait(5)
    return orig(self)
FB._prepare_file_creation = patched
res = {}
def fA(b, fn):
    open(fn,'w').write('A'); b_may_go.set(); b_done.wait(5); return 'A'
def fB(b, fn):
    open(fn,'w').write('B'); return 'B'
def root(b):
    def runB():
        try: res['B'] = b.build_file(target,'f',fB)
        except Exception as e: res['B'] = repr(e)
        b_done.set()
    t = threading.Thread(target=runB, name='B'); t.start(); b_in_prepare.wait(5)
    try: res['A'] = b.build_file(target,'f',fA)
    except Exception as e: res['A'] = repr(e)
    t.join()
    return dict(res)
print(FileBuilder.build(cache,'n',root))
print('exists after build:', os.path.exists(target))
shutil.rmtree(d)
