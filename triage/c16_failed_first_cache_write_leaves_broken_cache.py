import os, sys, tempfile, shutil, logging
sys.path.insert(0, '/repo')
from unittest import mock
from file_builder import FileBuilder
import file_builder.cache as cache_mod
logging.disable(logging.CRITICAL)
d = tempfile.mkdtemp(); cache = os.path.join(d,'c.gz')
def w(b, fn): open(fn,'w').write('x')
def root(b): b.build_file(os.path.join(d,'out.txt'),'w',w); return 1
def failing_dumps(*a, **k): raise OSError(28, 'No space left on device (injected while writing cache)')
before = sorted(os.listdir(d))
try:
    with mock.patch.object(cache_mod.json, 'dumps', failing_dumps):
        FileBuilder.build(cache,'n',root)
except OSError as e:
    print('build raised', type(e).__name__)
print('tree before:', before, ' after failed first build:', sorted(os.listdir(d)))
try:
    print('next build:', FileBuilder.build(cache,'n',root))
except Exception as e:
    print('next build raised:', type(e).__name__, e)
shutil.rmtree(d)
