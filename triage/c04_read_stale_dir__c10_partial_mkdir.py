import os, sys, tempfile, shutil
sys.path.insert(0, '/repo')
from file_builder import FileBuilder, FileComparison
from unittest import mock

d = tempfile.mkdtemp()
cache = os.path.join(d, 'c.gz')
def w(b, fn):
    open(fn,'w').write('x')
def root1(b):
    b.build_file(os.path.join(d,'out','f.txt'), 'w', w)
FileBuilder.build(cache,'n',root1)
def root2(b):
    p = os.path.join(d,'out')
    res = {'is_dir': b.is_dir(p), 'exists': b.exists(p)}
    for name, f in [('read_text', b.read_text), ('declare_read', b.declare_read), ('list_dir', b.list_dir), ('get_size', b.get_size)]:
        try:
            f(p); res[name]='ok'
        except OSError as e:
            res[name]=type(e).__name__
    return res
print('C04 stale dir:', FileBuilder.build(cache,'n',root2))
shutil.rmtree(d)

# C10/C14: second of three mkdirs fails
d = tempfile.mkdtemp()
cache = os.path.join(d, 'c.gz')
real_mkdir = os.mkdir
count = [0]
def bad_mkdir(p, *a, **k):
    if p.startswith(os.path.join(d,'a')):
        count[0]+=1
        if count[0]==2:
            raise PermissionError('injected')
    return real_mkdir(p,*a,**k)
def root3(b):
    try:
        with mock.patch('os.mkdir', bad_mkdir):
            b.build_file(os.path.join(d,'a','b','c','f.txt'),'w',w)
    except OSError as e:
        r = type(e).__name__
    return [r, b.is_dir(os.path.join(d,'a')), b.exists(os.path.join(d,'a'))]
print('C10 partial mkdir:', FileBuilder.build(cache,'n',root3))
print('  tree after commit:', sorted(os.listdir(d)))
FileBuilder.clean(cache,'n')
print('  tree after clean:', sorted(os.listdir(d)))
shutil.rmtree(d)
