import os, sys, tempfile, shutil
sys.path.insert(0, '/repo')
from file_builder import FileBuilder
from unittest import mock
import logging
d = tempfile.mkdtemp(); cache = os.path.join(d,'c.gz')
def w(b, fn): open(fn,'w').write('x')
def sub(b):
    b.build_file(os.path.join(d,'p','f1.txt'),'w',w)
    b.build_file(os.path.join(d,'q','f2.txt'),'w',w)
    return 1
def root(b): return b.subbuild('sub', sub)
FileBuilder.build(cache,'n',root)
# externally remove dir q so that apply must mkdir it (file f2 gone -> cache miss actually). Instead keep files, fail mkdir? dirs exist -> FileExistsError path. Use os.mkdir mock raising PermissionError for q.
real_mkdir = os.mkdir
def bad_mkdir(p,*a,**k):
    if p == os.path.join(d,'q'): raise PermissionError('inj')
    return real_mkdir(p,*a,**k)
def root2(b):
    try:
        with mock.patch('os.mkdir', bad_mkdir):
            r = b.subbuild('sub', sub)
    except OSError as e:
        r = type(e).__name__
    return [r, b.is_dir(os.path.join(d,'p')), b.is_file(os.path.join(d,'p','f1.txt')), b.is_dir(os.path.join(d,'q'))]
print(FileBuilder.build(cache,'n',root2))
def tree():
    out=[]
    for r,ds,fs in os.walk(d):
        for x in ds+fs: out.append(os.path.relpath(os.path.join(r,x),d))
    return sorted(out)
print('after commit:', tree())
FileBuilder.clean(cache,'n'); print('after clean:', tree())
shutil.rmtree(d)
