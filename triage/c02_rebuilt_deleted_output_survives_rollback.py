import os, sys, tempfile, shutil, logging
sys.path.insert(0, '/repo')
from file_builder import FileBuilder
logging.disable(logging.CRITICAL)
d = tempfile.mkdtemp(); cache = os.path.join(d,'c.gz'); out=os.path.join(d,'out.txt')
def w(b, fn): open(fn,'w').write('x')
def ok(b): b.build_file(out,'w',w)
def failing(b): b.build_file(out,'w',w); raise ValueError('root fails after rebuilding out')
FileBuilder.build(cache,'n',ok)
os.remove(out)                       # external deletion between builds
pre = sorted(os.listdir(d))
try: FileBuilder.build(cache,'n',failing)
except ValueError: pass
print('pre-build tree:', pre, ' after rolled-back build:', sorted(os.listdir(d)))
shutil.rmtree(d)
